"""Sharded Hypothesis runner, replay, evidence writer (DESIGN §2)."""
from __future__ import annotations

import importlib
import json
import math
import os
import sys
import time
import traceback

from . import core

VERIF_DIR = os.path.dirname(os.path.dirname(os.path.abspath(__file__)))
MAX_ROUNDS = 4  # distinct root causes collected per shard (collect-then-shrink)
MAX_SAMPLES = 3


def repo_dir():
    return os.path.abspath(os.environ.get("VERIF_REPO", "/repo"))


def prepare_env():
    """Environment for this process and every spawned worker."""
    env = os.environ
    env.setdefault("JAX_PLATFORMS", "cpu")
    env.setdefault("PYTHONHASHSEED", "0")
    env.setdefault("TQDM_DISABLE", "1")
    env.setdefault("OMP_NUM_THREADS", "1")
    env.setdefault("OPENBLAS_NUM_THREADS", "1")
    env.setdefault("MKL_NUM_THREADS", "1")
    env.setdefault(
        "XLA_FLAGS",
        "--xla_cpu_multi_thread_eigen=false intra_op_parallelism_threads=1",
    )
    env.setdefault("TF_CPP_MIN_LOG_LEVEL", "3")
    if not env.get("VERIF_NO_JAX_CACHE"):
        cache = os.path.join(VERIF_DIR, ".cache", "jax")
        try:
            os.makedirs(cache, exist_ok=True)
            env.setdefault("JAX_COMPILATION_CACHE_DIR", cache)
            env.setdefault("JAX_PERSISTENT_CACHE_MIN_COMPILE_TIME_SECS", "0.3")
            env.setdefault("JAX_PERSISTENT_CACHE_MIN_ENTRY_SIZE_BYTES", "0")
        except OSError:
            pass
    # the tree under test comes first on the path (scratch copies for mutants)
    rd = repo_dir()
    pp = env.get("PYTHONPATH", "")
    parts = [p for p in pp.split(os.pathsep) if p]
    for p in (VERIF_DIR, rd):
        if p in parts:
            parts.remove(p)
        parts.insert(0, p)
    env["PYTHONPATH"] = os.pathsep.join(parts)
    for p in (VERIF_DIR, rd):
        if p in sys.path:
            sys.path.remove(p)
        sys.path.insert(0, p)


def assert_tree():
    import rl_blox

    f = os.path.abspath(rl_blox.__file__)
    if not f.startswith(repo_dir() + os.sep):
        raise core.HarnessError(
            f"rl_blox imported from {f}, expected under {repo_dir()}"
        )


def load_module(prop):
    import glob

    pat = os.path.join(VERIF_DIR, "props", prop.lower() + "*.py")
    files = sorted(glob.glob(pat))
    if not files:
        raise core.HarnessError(f"no module for property {prop}")
    name = "props." + os.path.basename(files[0])[:-3]
    return importlib.import_module(name)


def find_sub(mod, name):
    for s in mod.SUBCHECKS:
        if s.name == name:
            return s
    raise core.HarnessError(f"no sub-check {name} in {mod.__name__}")


def _from_code_under_test(tb):
    """Innermost rl_blox frame of a traceback, or None."""
    root = os.path.join(repo_dir(), "rl_blox") + os.sep
    site = None
    for fs in traceback.extract_tb(tb):
        if os.path.abspath(fs.filename).startswith(root):
            site = f"{os.path.relpath(fs.filename, repo_dir())}:{fs.name}"
    return site


def execute(sub, case):
    """Run one case.  Returns (outcome, known_hits); raises Violation /
    HarnessError.  Exceptions escaping from rl_blox code are violations of
    signature ``raises`` (DESIGN §7.2); exceptions from harness code are
    harness errors."""
    core.reset_hits()
    try:
        out = sub.run(case)
    except core.Violation:
        raise
    except core.HarnessError:
        raise
    except (KeyboardInterrupt, SystemExit):
        raise
    except Exception as e:  # noqa: BLE001
        if type(e).__module__.startswith("hypothesis"):
            raise
        site = _from_code_under_test(e.__traceback__)
        if site is None:
            raise core.HarnessError(
                f"{sub.name}: harness exception {type(e).__name__}: {e}\n"
                + "".join(traceback.format_exception(e))
            ) from e
        key = f"{sub.name}.raises.{type(e).__name__}@{site}"
        core.report(key, f"{type(e).__name__}: {str(e)[:300]}")
        out = core.Outcome(labels=["raised-known"], nontrivial=False)
    if out is None:
        out = core.Outcome()
    return out, core.hits()


def run_shard(task):
    """Worker entry point: one seed shard of one sub-check."""
    t0 = time.time()
    prop = task["prop"]
    res = {
        "sub": task["sub"], "shard": task["shard"], "evals": 0, "nontrivial": 0,
        "fps": [], "labels": {}, "samples": [], "known": {}, "violations": [],
        "error": None, "wall": 0.0, "excluded_reported": 0,
    }
    if os.environ.get("VERIF_SELFTEST_CRASH") == task["sub"]:
        os._exit(9)  # self-test of the runner: a worker that dies must give exit 2 at once
    try:
        os.environ["VERIF_TIER"] = task.get("tier", "quick")
        os.environ["VERIF_SHARD_SALT"] = str(task["seed"])
        prepare_env()
        import hypothesis
        from hypothesis import HealthCheck, Phase, given, settings

        mod = load_module(prop)
        assert_tree()
        sub = find_sub(mod, task["sub"])
        core.configure(prop, core.KnownFindings(os.path.join(VERIF_DIR, "KNOWN_FINDINGS.txt")))
        fps = set()
        exclude = set()
        state = {"last_fail": None}

        def body(case):
            res["evals"] += 1
            try:
                out, known = execute(sub, case)
            except core.Violation as v:
                if v.key in exclude:
                    res["excluded_reported"] += 1
                    return
                state["last_fail"] = (case, v.key, v.detail)
                raise
            for k in known:
                res["known"][k] = res["known"].get(k, 0) + 1
            for lab in out.labels:
                res["labels"][lab] = res["labels"].get(lab, 0) + 1
            if out.nontrivial:
                res["nontrivial"] += 1
                fp = core.fingerprint(out.fp if out.fp is not None else case)
                if fp not in fps:
                    fps.add(fp)
                    if len(res["samples"]) < MAX_SAMPLES:
                        res["samples"].append(case)

        phases = [Phase.explicit, Phase.generate]
        if sub.shrink:
            phases.append(Phase.shrink)
        # too_slow is a wall-clock signal (fires under machine load): never a
        # correctness signal here.  filter_too_much / data_too_large /
        # large_base_example stay on: they indicate a generator to fix.
        suppress = [HealthCheck.too_slow]
        for rnd in range(MAX_ROUNDS):
            st = settings(
                max_examples=task["n"], database=None, deadline=None,
                report_multiple_bugs=False, derandomize=False, phases=phases,
                suppress_health_check=suppress, print_blob=False,
            )
            def test_case(case):
                body(case)

            test = hypothesis.seed(task["seed"] + rnd)(
                st(given(case=sub.get_strategy())(test_case))
            )
            state["last_fail"] = None
            try:
                test()
                break
            except core.Violation:
                case, key, detail = state["last_fail"]
                if sub.simplify is not None and not sub.shrink:
                    case, key, detail = _greedy_min(sub, case, key, detail)
                res["violations"].append({"key": key, "detail": detail, "case": case})
                exclude.add(key)
            except hypothesis.errors.Flaky:
                if not (sub.flaky_is_violation and state["last_fail"]):
                    raise
                case, key, detail = state["last_fail"]
                res["violations"].append({"key": key, "detail": detail + " [not reproduced on re-execution]",
                                          "case": case})
                exclude.add(key)
        res["fps"] = sorted(fps)
    except core.HarnessError as e:
        res["error"] = f"HarnessError: {e}"
    except BaseException as e:  # noqa: BLE001
        res["error"] = "".join(traceback.format_exception(e))[-4000:]
    res["wall"] = time.time() - t0
    return res


def run_fuzz(task):
    """Worker: one atheris campaign (tools/fuzz.py) in a subprocess."""
    import shutil
    import subprocess
    import tempfile

    t0 = time.time()
    res = {"sub": task["sub"], "shard": "fuzz%d" % task["shard"], "evals": 0, "nontrivial": 0,
           "fps": [], "labels": {}, "samples": [], "known": {}, "violations": [],
           "error": None, "wall": 0.0, "excluded_reported": 0}
    tmp = tempfile.mkdtemp(prefix="verif_fuzz_")
    try:
        out = os.path.join(tmp, "result.json")
        corpus = os.path.join(tmp, "corpus")
        cmd = [sys.executable, os.path.join(VERIF_DIR, "tools", "fuzz.py"), task["prop"], task["sub"],
               "--runs", str(task["n"]), "--seed", str(task["seed"] % (2**31 - 1) + 1),
               "--out", out, "--corpus", corpus]
        p = subprocess.run(cmd, capture_output=True, text=True, cwd=VERIF_DIR)
        if not os.path.exists(out):
            res["error"] = "fuzz.py produced no result: " + (p.stderr or p.stdout)[-1500:]
            return res
        with open(out) as f:
            d = json.load(f)
        res["evals"] = d["evals"]
        res["nontrivial"] = d["nontrivial"]
        res["fps"] = d["fps"]
        res["labels"] = {"atheris:" + k: v for k, v in d["labels"].items()}
        res["labels"]["atheris:byte-strings-tried"] = d.get("calls", 0)
        res["samples"] = d["samples"]
        res["known"] = d["known"]
        if d.get("violation"):
            res["violations"].append(d["violation"])
        elif d.get("error"):
            res["error"] = "fuzz harness error: " + d["error"][-1500:]
        elif p.returncode != 0:
            res["error"] = "fuzz.py exit %d: %s" % (p.returncode, (p.stderr or "")[-1500:])
    except BaseException as e:  # noqa: BLE001
        res["error"] = "".join(traceback.format_exception(e))[-3000:]
    finally:
        shutil.rmtree(tmp, ignore_errors=True)
    res["wall"] = time.time() - t0
    return res


def dispatch(task):
    return run_fuzz(task) if task.get("kind") == "fuzz" else run_shard(task)


def _child_entry(conn, kind, task):
    """Process entry point: run one task, send its result through the pipe."""
    try:
        res = replay_task(task) if kind == "regress" else dispatch(task)
        conn.send(res)
    finally:
        conn.close()


def have_atheris():
    return os.path.isdir(os.path.join(VERIF_DIR, ".deps", "atheris"))


def _greedy_min(sub, case, key, detail, budget=40):
    improved = True
    while improved and budget > 0:
        improved = False
        for cand in sub.simplify(case):
            if budget <= 0:
                break
            budget -= 1
            try:
                execute(sub, cand)
            except core.Violation as v:
                if v.key == key:
                    case, detail = cand, v.detail
                    improved = True
                    break
            except Exception:  # noqa: BLE001
                continue
    return case, key, detail


def replay_task(task):
    """Worker: replay saved cases (regression witnesses or --replay)."""
    out = []
    try:
        prepare_env()
        mod = load_module(task["prop"])
        assert_tree()
        core.configure(task["prop"], core.KnownFindings(os.path.join(VERIF_DIR, "KNOWN_FINDINGS.txt")))
        for path in task["paths"]:
            with open(path) as f:
                rec = json.load(f)
            sub = find_sub(mod, rec["subcheck"])
            try:
                _, known = execute(sub, rec["case"])
                out.append({"path": path, "ok": True, "known": known})
            except core.Violation as v:
                out.append({"path": path, "ok": False, "key": v.key, "detail": v.detail,
                            "case": rec["case"], "sub": rec["subcheck"]})
    except core.HarnessError as e:
        return {"error": f"HarnessError: {e}", "results": out}
    except BaseException as e:  # noqa: BLE001
        return {"error": "".join(traceback.format_exception(e))[-4000:], "results": out}
    return {"error": None, "results": out}


# ---------------------------------------------------------------------------

def plan_tasks(mod, prop, tier, seed, only=None, scale=1.0):
    tasks = []
    for sub in mod.SUBCHECKS:
        if only and sub.name not in only:
            continue
        n = sub.quick if tier == "quick" else sub.thorough
        n = max(1, int(math.ceil(n * scale)))
        max_sh = sub.shards if tier == "quick" else sub.shards_thorough
        shards = max(1, min(max_sh, n))
        per = int(math.ceil(n / shards))
        for i in range(shards):
            tasks.append({
                "prop": prop, "sub": sub.name, "shard": i, "n": per, "tier": tier,
                "seed": core.derive_seed(seed, prop, sub.name, i), "cost": sub.cost * per,
            })
        if tier == "thorough" and sub.fuzz_runs > 0 and have_atheris():
            fs = max(1, sub.fuzz_shards)
            for i in range(fs):
                tasks.append({
                    "kind": "fuzz", "prop": prop, "sub": sub.name, "shard": i,
                    "n": int(math.ceil(sub.fuzz_runs * scale / fs)), "tier": tier,
                    "seed": core.derive_seed(seed, prop, sub.name, "fuzz", i),
                    "cost": sub.cost * sub.fuzz_runs / fs / 5.0,
                })
    tasks.sort(key=lambda t: -t["cost"])
    return tasks


def write_replay(prop, sub, v):
    d = os.environ.get("VERIF_FOUND_DIR") or os.path.join(VERIF_DIR, "replays", "found")
    os.makedirs(d, exist_ok=True)
    name = f"{prop}_{sub}_{core.fingerprint([v['key'], v['case']])}.json"
    path = os.path.join(d, name)
    with open(path, "w") as f:
        json.dump({"property": prop, "subcheck": sub, "key": v["key"],
                   "detail": v["detail"], "case": v["case"]}, f, indent=1,
                  default=core._json_default)
    return os.path.relpath(path, VERIF_DIR) if path.startswith(VERIF_DIR + os.sep) else path


def main(argv=None):
    import argparse
    import glob
    import multiprocessing as mp

    ap = argparse.ArgumentParser()
    ap.add_argument("prop")
    ap.add_argument("--tier", default=os.environ.get("VERIF_TIER", "quick"),
                    choices=["quick", "thorough"])
    ap.add_argument("--replay", default=None)
    ap.add_argument("--only", default=None, help="comma-separated sub-check names")
    ap.add_argument("--scale", type=float, default=float(os.environ.get("VERIF_SCALE", "1")))
    ap.add_argument("--jobs", type=int, default=int(os.environ.get("VERIF_JOBS", "16")))
    ap.add_argument("--no-evidence", action="store_true")
    args = ap.parse_args(argv)
    prop = args.prop.upper()
    os.environ["VERIF_TIER"] = args.tier
    seed = int(os.environ.get("VERIF_SEED", "1"))
    t0 = time.time()
    prepare_env()
    ctx = mp.get_context("spawn")
    kf = core.KnownFindings(os.path.join(VERIF_DIR, "KNOWN_FINDINGS.txt"))

    if args.replay:
        r = replay_task({"prop": prop, "paths": [args.replay]})
        if r["error"]:
            print("HARNESS-ERROR", r["error"])
            return 2
        rc = 0
        for x in r["results"]:
            if x["ok"]:
                for k in x["known"]:
                    print(f"KNOWN-FINDING: property={prop} {kf.text(prop, k)} [{k}]")
                print(f"replay {x['path']}: property held")
            else:
                print(f"replay {x['path']}: {x['key']}: {x['detail']}")
                print(f"VIOLATION property={prop} replay={args.replay}")
                rc = 1
        return rc

    mod = load_module(prop)
    only = set(args.only.split(",")) if args.only else None
    tasks = plan_tasks(mod, prop, args.tier, seed, only, args.scale)
    regress = sorted(glob.glob(os.path.join(VERIF_DIR, "replays", "regress", prop + "_*.json")))
    budget = float(os.environ.get("VERIF_BUDGET_S", "1500" if args.tier == "quick" else "14400"))

    results, errors, violations = [], [], []
    regress_n = 0
    # One fresh process per shard (Hypothesis harvests constants from the modules a process has
    # imported, so with reused workers the cases of a shard would depend on what ran there before).
    # The processes are managed directly: a worker that dies is noticed at once (exit 2), nothing
    # can dead-lock inside pool / executor machinery, and leftovers are killed when the budget ends.
    from multiprocessing.connection import wait as conn_wait

    queue = [("shard", t) for t in tasks]
    if regress:
        queue.insert(0, ("regress", {"prop": prop, "paths": regress}))
    max_active = max(1, min(args.jobs, len(queue)))
    active = {}  # recv connection -> (process, kind, task)

    def _handle(kind, task, res):
        nonlocal regress_n
        if kind == "regress":
            if res["error"]:
                errors.append("regress replay: " + res["error"])
            for x in res["results"]:
                regress_n += 1
                if not x["ok"]:
                    violations.append({"sub": x["sub"], "key": x["key"], "detail": x["detail"], "case": x["case"],
                                       "path": os.path.relpath(x["path"], VERIF_DIR)})
            return
        results.append(res)
        if res["error"]:
            errors.append(f"{res['sub']}#{res['shard']}: {res['error']}")

    try:
        failed = False
        while (queue or active) and not failed:
            while queue and len(active) < max_active:
                kind, task = queue.pop(0)
                rx, tx = ctx.Pipe(duplex=False)
                pr = ctx.Process(target=_child_entry, args=(tx, kind, task), daemon=True)
                pr.start()
                tx.close()
                active[rx] = (pr, kind, task)
            if time.time() - t0 > budget:
                errors.append(f"time budget of {budget}s exhausted (inconclusive)")
                break
            for rx in conn_wait(list(active), timeout=1.0):
                pr, kind, task = active.pop(rx)
                what = f"{task['sub']}#{task['shard']}" if kind == "shard" else "regress replay"
                try:
                    res = rx.recv()
                except (EOFError, OSError):
                    pr.join(timeout=5)
                    errors.append(f"{what}: worker died without a result (exit code {pr.exitcode})")
                    failed = True
                    continue
                finally:
                    rx.close()
                pr.join(timeout=30)
                _handle(kind, task, res)
    finally:
        for rx, (pr, _, _) in active.items():
            try:
                pr.kill()
            except Exception:  # noqa: BLE001
                pass

    # aggregate
    per_sub = {}
    known_total = {}
    seen_keys = set(v["key"] for v in violations)
    for res in results:
        s = per_sub.setdefault(res["sub"], {"evaluations": 0, "nontrivial": 0, "fps": set(),
                                            "labels": {}, "samples": [], "wall_s": 0.0,
                                            "known_excluded": 0})
        s["evaluations"] += res["evals"]
        s["nontrivial"] += res["nontrivial"]
        if str(res["shard"]).startswith("fuzz"):
            s["atheris_cases"] = s.get("atheris_cases", 0) + res["evals"]
            s["atheris_nontrivial"] = s.get("atheris_nontrivial", 0) + res["nontrivial"]
        s["fps"].update(res["fps"])
        s["wall_s"] += res["wall"]
        for k, v in res["labels"].items():
            s["labels"][k] = s["labels"].get(k, 0) + v
        for c in res["samples"]:
            if len(s["samples"]) < MAX_SAMPLES:
                s["samples"].append(c)
        for k, v in res["known"].items():
            known_total[k] = known_total.get(k, 0) + v
            s["known_excluded"] += v
        for v in res["violations"]:
            if v["key"] in seen_keys:
                continue
            seen_keys.add(v["key"])
            path = write_replay(prop, res["sub"], v)
            violations.append({"sub": res["sub"], "key": v["key"], "detail": v["detail"],
                               "case": v["case"], "path": path})

    for k in sorted(known_total):
        print(f"KNOWN-FINDING: property={prop} {kf.text(prop, k)} [{k}; hit by {known_total[k]} cases]")
    for v in violations:
        print(f"violation in {v['sub']}: {v['key']}: {v['detail'][:500]}")
        print(f"VIOLATION property={prop} replay={v['path']}")

    low = []
    for name, s in per_sub.items():
        sub = find_sub(mod, name)
        # the generator-health floor is about the Hypothesis strategies; byte-decoded atheris cases
        # are reported (atheris_cases) but do not dilute it
        h_evals = s["evaluations"] - s.get("atheris_cases", 0)
        h_nt = s["nontrivial"] - s.get("atheris_nontrivial", 0)
        frac = h_nt / max(1, h_evals) if h_evals > 0 else s["nontrivial"] / max(1, s["evaluations"])
        s["nontrivial_frac"] = round(frac, 4)
        if frac < sub.min_nontrivial_frac and not violations:
            low.append(f"{name}: non-trivial fraction {frac:.2f} < {sub.min_nontrivial_frac}")
    if low and not errors:
        errors.extend("generator too weak: " + m for m in low)

    evals = sum(s["evaluations"] for s in per_sub.values())
    distinct = sum(len(s["fps"]) for s in per_sub.values())
    wall = time.time() - t0
    if not args.no_evidence and not only:
        samples = []
        for name, s in per_sub.items():
            for c in s["samples"][:2]:
                samples.append({"subcheck": name, "case": c})
        ev = {
            "property_id": prop, "tier": args.tier, "seed": seed, "level": "exploration",
            "coverage": {
                "evaluations": evals, "distinct_nontrivial": distinct,
                "rule": getattr(mod, "RULE", ""),
                "samples": samples[:40],
                "subchecks": {
                    name: {"evaluations": s["evaluations"], "nontrivial": s["nontrivial"],
                           "distinct_nontrivial": len(s["fps"]),
                           "nontrivial_frac": s.get("nontrivial_frac"),
                           "labels": dict(sorted(s["labels"].items())),
                           "known_excluded": s["known_excluded"],
                           "atheris_cases": s.get("atheris_cases", 0),
                           "rule": find_sub(mod, name).rule,
                           "cpu_s": round(s["wall_s"], 1)}
                    for name, s in sorted(per_sub.items())
                },
                "known_findings_hit": known_total,
                "regress_replays": regress_n,
                "harness_errors": errors[:10],
                "exhaustive": False,
            },
            "assumptions": list(getattr(mod, "ASSUMPTIONS", [])),
            "wall_s": round(wall, 2),
            "violations": len(violations),
        }
        os.makedirs(os.path.join(VERIF_DIR, "evidence"), exist_ok=True)
        tmp = os.path.join(VERIF_DIR, "evidence", prop + ".json.tmp")
        with open(tmp, "w") as f:
            json.dump(ev, f, indent=1, default=core._json_default)
        os.replace(tmp, os.path.join(VERIF_DIR, "evidence", prop + ".json"))

    print(f"{prop} {args.tier} seed={seed}: {evals} cases, {distinct} distinct non-trivial, "
          f"{len(violations)} violations, {sum(known_total.values())} known-finding hits, {wall:.1f}s")
    for name, s in sorted(per_sub.items()):
        print(f"  {name}: {s['evaluations']} cases, nt={s.get('nontrivial_frac')}, "
              f"distinct={len(s['fps'])}, cpu={s['wall_s']:.1f}s")
    if violations:
        return 1
    if errors:
        for e in errors:
            print("HARNESS-ERROR", e)
        return 2
    return 0
