"""Scripted tabular environment with a Tuple(Discrete, ...) observation space.

Same script / reward / logging conventions as ``vlib.envs.ScriptedTabularEnv``
(dynamics ignore the action); the scripted flat state is unravelled over the
observation axes and handed out the way environments with such spaces do it: a
tuple of python ints (``Blackjack-v1``) or a tuple of numpy integers
(``Tuple.sample()``).  ``rl_blox.blox.value_policy.make_q_table`` builds a table
of shape ``dims + (n_actions,)`` for it.
"""
from __future__ import annotations

import gymnasium as gym
import numpy as np

from .envs import ScriptedTabularEnv

OBS_FORMS = ("tuple", "np_tuple")


class ScriptedTupleTabularEnv(ScriptedTabularEnv):
    def __init__(self, script, dims=(2, 3), n_actions=3, seed=0, form="tuple", log=None, on_step=None):
        assert form in OBS_FORMS and len(dims) >= 2 and all(int(n) >= 1 for n in dims)
        self.dims = tuple(int(n) for n in dims)
        self.form = form
        super().__init__(script, n_states=int(np.prod(self.dims)), n_actions=n_actions, seed=seed, log=log,
                         on_step=on_step)
        self.observation_space = gym.spaces.Tuple([gym.spaces.Discrete(n) for n in self.dims])

    def make_obs(self, episode, t):
        flat = super().make_obs(episode, t)
        idx = np.unravel_index(flat, self.dims)
        if self.form == "tuple":
            return tuple(int(i) for i in idx)
        return tuple(np.int64(i) for i in idx)
