"""Scripted, self-describing, recording gymnasium environments (DESIGN §3).

An *episode script* is a list of ``[length >= 1, end]`` pairs with ``end`` in
{"term", "trunc", "both"} ("both": the step returns terminated and truncated
together, as gymnasium's TimeLimit does when the limit expires on a
terminating step); it is cycled.  Observations are unique and decodable:
``obs = [episode, t, payload, ...]`` with payload a hash of (seed, episode, t).
Rewards are ``episode + t/1000 + payload`` evaluated for the step that
produced them.  Dynamics ignore the action, so a history is controlled by the
script alone.  Every reset/step is logged with arguments and results.
"""
from __future__ import annotations

import copy

import gymnasium as gym
import numpy as np


def _payload(seed, episode, t, k=0):
    # small deterministic hash in [0, 1)
    x = (seed * 1000003 + episode * 7919 + t * 104729 + k * 1299709 + 12345) & 0xFFFFFFFF
    x ^= x >> 16
    x = (x * 0x45D9F3B) & 0xFFFFFFFF
    x ^= x >> 16
    return (x % 4096) / 4096.0


class EnvLog:
    """Shared log: list of dict events in call order."""

    def __init__(self):
        self.events = []
        self.violations = []  # discipline violations observed (strict mode)

    def steps(self):
        return [e for e in self.events if e["kind"] == "step"]

    def resets(self):
        return [e for e in self.events if e["kind"] == "reset"]


class ScriptedEnv(gym.Env):
    """Continuous-observation env with Box or Discrete actions."""

    metadata = {"render_modes": []}

    def __init__(self, script, seed=0, obs_dim=3, action_space=None, log=None,
                 on_step=None, env_id=0, reward_scale=1.0, spec_id="Scripted-v0", obs_dtype="float32"):
        assert obs_dim >= 3
        self.script = [(int(l), str(e)) for l, e in script]
        assert all(l >= 1 and e in ("term", "trunc", "both") for l, e in self.script)
        self.script_seed = int(seed)
        self.obs_dim = obs_dim
        # float64: the payload entries are not representable in float32 (as MuJoCo observations are not)
        self.obs_dtype = np.dtype(obs_dtype)
        self.observation_space = gym.spaces.Box(-np.inf, np.inf, (obs_dim,), dtype=self.obs_dtype.type)
        if action_space is None:
            action_space = gym.spaces.Box(-1.0, 1.0, (1,), dtype=np.float32)
        self.action_space = action_space
        self.log = log if log is not None else EnvLog()
        self.on_step = on_step
        self.env_id = env_id
        self.reward_scale = reward_scale
        self.episode = -1
        self.t = 0
        self.done = True
        self.n_steps = 0
        self.n_resets = 0

    # -- helpers -----------------------------------------------------------
    def make_obs(self, episode, t):
        o = np.zeros(self.obs_dim, dtype=self.obs_dtype)
        o[0] = episode
        o[1] = t
        for k in range(2, self.obs_dim):
            o[k] = _payload(self.script_seed + 31 * self.env_id, episode, t, k)
            if self.obs_dtype == np.float64:
                o[k] = (o[k] + 0.5) / 3.0
        return o

    def make_reward(self, episode, t):
        """Reward of the step taken at time t of ``episode``."""
        return float(self.reward_scale * (episode + t / 1000.0 + _payload(self.script_seed, episode, t, 99)))

    @staticmethod
    def decode(obs):
        o = np.asarray(obs)
        return int(round(float(o[..., 0]))), int(round(float(o[..., 1])))

    # -- gym API -------------------------------------------------------------
    def reset(self, *, seed=None, options=None):
        super().reset(seed=seed)
        self.episode += 1
        self.t = 0
        self.done = False
        self.n_resets += 1
        obs = self.make_obs(self.episode, 0)
        self.log.events.append({"kind": "reset", "env": self.env_id, "seed": seed,
                                "obs": obs.copy(), "episode": self.episode})
        return obs, {}

    def step(self, action):
        a = copy.deepcopy(np.asarray(action))
        if self.done:
            self.log.violations.append(
                {"what": "step_on_finished_episode", "env": self.env_id, "n_steps": self.n_steps})
            # continue the history: behave as if a new episode had been started
            self.episode += 1
            self.t = 0
            self.done = False
        length, end = self.script[self.episode % len(self.script)]
        reward = self.make_reward(self.episode, self.t)
        self.t += 1
        self.n_steps += 1
        obs = self.make_obs(self.episode, self.t)
        terminated = bool(self.t >= length and end in ("term", "both"))
        truncated = bool(self.t >= length and end in ("trunc", "both"))
        self.done = terminated or truncated
        ev = {"kind": "step", "env": self.env_id, "action": a, "obs": obs.copy(), "reward": reward,
              "terminated": terminated, "truncated": truncated, "episode": self.episode, "t": self.t,
              "index": self.n_steps - 1}
        self.log.events.append(ev)
        if self.on_step is not None:
            self.on_step(self, ev)
        return obs, reward, terminated, truncated, {}


class ScriptedTabularEnv(gym.Env):
    """Discrete observation / discrete action env following a script.

    State = (episode * stride + t) mod n_states so that consecutive states
    differ; the log keeps the true (episode, t)."""

    metadata = {"render_modes": []}

    def __init__(self, script, n_states=6, n_actions=3, seed=0, log=None, on_step=None):
        self.script = [(int(l), str(e)) for l, e in script]
        self.n_states = n_states
        self.observation_space = gym.spaces.Discrete(n_states)
        self.action_space = gym.spaces.Discrete(n_actions)
        self.script_seed = int(seed)
        self.log = log if log is not None else EnvLog()
        self.on_step = on_step
        self.episode = -1
        self.t = 0
        self.done = True
        self.n_steps = 0

    def make_obs(self, episode, t):
        return int((episode * 2 + t + int(_payload(self.script_seed, episode, t) * 2)) % self.n_states)

    def make_reward(self, episode, t):
        return float(round(_payload(self.script_seed, episode, t, 99) * 8) - 4)

    def reset(self, *, seed=None, options=None):
        super().reset(seed=seed)
        self.episode += 1
        self.t = 0
        self.done = False
        obs = self.make_obs(self.episode, 0)
        self.log.events.append({"kind": "reset", "env": 0, "seed": seed, "obs": obs, "episode": self.episode})
        return obs, {}

    def step(self, action):
        if self.done:
            self.log.violations.append({"what": "step_on_finished_episode", "n_steps": self.n_steps})
            self.episode += 1
            self.t = 0
            self.done = False
        length, end = self.script[self.episode % len(self.script)]
        reward = self.make_reward(self.episode, self.t)
        self.t += 1
        self.n_steps += 1
        obs = self.make_obs(self.episode, self.t)
        terminated = bool(self.t >= length and end in ("term", "both"))
        truncated = bool(self.t >= length and end in ("trunc", "both"))
        self.done = terminated or truncated
        ev = {"kind": "step", "env": 0, "action": int(action), "obs": obs, "reward": reward,
              "terminated": terminated, "truncated": truncated, "episode": self.episode, "t": self.t,
              "index": self.n_steps - 1}
        self.log.events.append(ev)
        if self.on_step is not None:
            self.on_step(self, ev)
        return obs, reward, terminated, truncated, {}


def make_box(low, high):
    low = np.asarray(low, dtype=np.float32)
    high = np.asarray(high, dtype=np.float32)
    return gym.spaces.Box(low, high, low.shape, dtype=np.float32)


def transitions_from_log(log, env_id=0):
    """Reference list of transitions implied by an env log (single env):
    each step paired with the observation returned by the most recent
    reset/step before it."""
    out = []
    cur = None
    for e in log.events:
        if e.get("env", 0) != env_id:
            continue
        if e["kind"] == "reset":
            cur = e["obs"]
        else:
            out.append({"observation": cur, "action": e["action"], "reward": e["reward"],
                        "next_observation": e["obs"], "terminated": e["terminated"],
                        "truncated": e["truncated"], "episode": e["episode"], "t": e["t"]})
            cur = e["obs"]
    return out


def make_vector_env(scripts, seed=0, obs_dim=3, action_space_fn=None, autoreset="same_step", log=None):
    """SyncVectorEnv over scripted envs; returns (vec_env, log, sub_envs)."""
    from gymnasium.vector import AutoresetMode, SyncVectorEnv

    log = log if log is not None else EnvLog()
    subs = []

    def mk(i):
        def f():
            e = ScriptedEnv(scripts[i], seed=seed, obs_dim=obs_dim,
                            action_space=action_space_fn() if action_space_fn else None,
                            log=log, env_id=i)
            subs.append(e)
            return e
        return f

    mode = {"same_step": AutoresetMode.SAME_STEP, "next_step": AutoresetMode.NEXT_STEP}[autoreset]
    venv = SyncVectorEnv([mk(i) for i in range(len(scripts))], autoreset_mode=mode)
    return venv, log, subs
