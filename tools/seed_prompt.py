#!/usr/bin/env python3
"""Print the prompt for an independent seeded-change sub-agent (gets only the
property text and a scratch worktree; nothing from /verif)."""
import json
import sys

pid, wt, n = sys.argv[1], sys.argv[2], int(sys.argv[3]) if len(sys.argv) > 3 else 2
round2 = len(sys.argv) > 4 and sys.argv[4] in ("round2", "round3", "round4", "round5", "round6")
round3 = len(sys.argv) > 4 and sys.argv[4] in ("round3", "round4", "round5", "round6")
round4 = len(sys.argv) > 4 and sys.argv[4] in ("round4", "round5", "round6")
round5 = len(sys.argv) > 4 and sys.argv[4] in ("round5", "round6")
round6 = len(sys.argv) > 4 and sys.argv[4] == "round6"
for l in open("/verif/properties.jsonl"):
    p = json.loads(l)
    if p["id"] == pid:
        break
mech = "\n".join(f"  - {m.get('name')} @ {m.get('where')}" for m in p["anchors"]["mechanism"])
extra = (" Other people have already produced the most obvious single-line changes for this property (dropped termination masks, "
         "off-by-one counters, swapped arguments, wrong clip, stale observation after reset). To be useful yours must be of a "
         "different flavour: prefer the less obvious files / functions among the relevant ones, changes made of two cooperating sites "
         "that each look fine alone, changes that only matter for a boundary hyper-parameter value or an unusual but documented "
         "calling pattern (continuing a run with global_step > 0, passing your own target networks / buffers / loggers, several "
         "parallel environments, multi-task wrappers), and changes whose effect is delayed by several steps." if round2 else "")
if round3:
    extra += (" Two earlier rounds have been done; already used, do NOT repeat: stale observation/action after reset, termination-vs-"
              "truncation mix-ups, schedule/index shifts on warm-up or continuation, aliasing instead of cloning, global-RNG or set-order "
              "nondeterminism in schedulers, dtype truncation of integer rewards, clip/mask off-by-ones, Huber delta/sign, PPO clip and "
              "per-epoch old log-probs, log_alpha clamps, caches that ignore part of their key. Look for something else: interactions with "
              "the logger argument, gradient_steps > 1, several updates per step, observation/action dimensions > 1, dtype (float64 "
              "observations, integer actions), batch dimension handling ((N,) vs (N,1)), optional arguments left at None vs passed "
              "explicitly, routines other than the most popular ones among the relevant files.")
if round4:
    extra += (" A third round is done too; also used already: field/keyword order, rollout arrays flattened in the wrong order, "
              "successors rebuilt by shifting, multi-axis Q-tables, last-layer activation flags, importance-weight renormalisation, "
              "uninitialised memory, unseeded default generators, logger-dependent episode counters, task-embedding renormalisation, "
              "misplaced stop_gradient, discount applied before the baseline, dropped action bias, noise shared over the batch. Think "
              "about what a reviewer would still wave through: numerically plausible rewrites that are only equal under an unstated "
              "assumption, state that survives between two calls of the same routine, interactions between two optional features.")
if round5:
    extra += (" A fourth round is done as well; also used already: in-place modification of the caller's numpy arguments, "
              "E[x^2]-E[x]^2 variance rewrites, (N,) vs (N,1) broadcasting in a loss, pickling that truncates or zeroes rows, "
              "sampled-task vs selected-task confusion, softmax-then-log instead of log-softmax, extra target sync when a call starts on a "
              "period boundary, mutable default arguments shared between calls, params-only state copies. Prefer: legal but rare "
              "hyper-parameter combinations of the relevant functions (read every keyword argument and ask which value nobody tests), "
              "arithmetic that is only right for one dtype or one sign, orderings of two statements that matter only in one branch, "
              "and bookkeeping that goes wrong only the second time something happens (second wrap-around, second episode, second "
              "task switch, second call).")
if round6:
    extra += (" A fifth round is done; also used already: exact ties of a maximiser, float64 observations or action spaces, only one of "
              "two optional arguments supplied, a second run with the same logger / a restarted step counter, exp(a)/exp(b) instead of "
              "exp(a-b), softplus rewrites that cancel, batch-wide instead of per-row reductions, reward models that ignore the observation, "
              "float32 cumulative sums that end below one, state dropped from a pickle and re-derived, unseeded observation-space samplers. "
              "You have little time: make ONE change per item quickly (about ten minutes each), prefer small diffs.")
print(f"""You are given a git worktree of the Python repository mlaux1/rl-blox (a JAX/Flax toolbox of reinforcement-learning algorithms) at {wt}. Work ONLY inside {wt} (never touch /repo, never look at /verif). The package is installed in editable mode from another directory, so ALWAYS run python as `cd {wt} && PYTHONPATH={wt} JAX_PLATFORMS=cpu /venv/bin/python ...` and confirm once that `import rl_blox; print(rl_blox.__file__)` points into {wt}.

Here is a semantic property that the library is supposed to satisfy:

Title: {p['title']}
Statement: {p['statement']}
Quantified over: {p['quantifier']['text']}
Relevant files: {', '.join(p['anchors']['files'])}
Mechanisms meant to make it hold:
{mech}

Your task: produce {n} DIFFERENT, realistic source changes to rl_blox (each a small edit, the kind of mistake a maintainer could plausibly make in a refactoring or 'optimisation') that each BREAK this property while the package still imports and the existing test suite still passes. The changes must need something specific to manifest — a particular multi-step sequence of operations, an unusual but legal input (a shape, a boundary value, wrap-around, an episode ending at a particular moment, a particular hyper-parameter combination), or two cooperating sites that each look fine alone — NOT something ordinary use would expose at once, and not a crash on every call. Each change should break a different clause / mechanism of the property.{extra} Do not add comments that reveal the change. NEVER use `git stash` (the stash is shared between worktrees of other people working in parallel): to get back to a clean tree use `git diff > x.diff; git checkout -- .` and `git apply x.diff`.

For each change k = 1..{n}:
 1. Make the edit in the worktree (start each change from a clean tree: `git -C {wt} checkout -- .`).
 2. Write a demonstration program {wt}/demo_k.py (plain Python script using only the library's public API plus numpy/jax/gymnasium; exit code 0 = property holds, exit code 1 = property violated, printing what was observed) that FAILS (exit 1) with the change and PASSES (exit 0) on the unchanged tree. Verify both directions yourself.
 3. Run the relevant existing tests with the change applied: `cd {wt} && PYTHONPATH={wt} /venv/bin/python -m pytest -q -p no:cacheprovider -x tests/<relevant files>`; (every test file that imports or exercises the module you changed - grep the tests directory for it) and confirm they pass. If a test fails, the change is not acceptable — revise it. Do NOT run the whole suite (it takes 10-25 minutes on this shared machine; it will be run on your change afterwards by someone else), but be sure that no other test can be affected.
 4. Save the change as {wt}/change_k.diff with `git -C {wt} diff -- rl_blox > {wt}/change_k.diff` (only files under rl_blox/), and keep demo_k.py.
Finish with the tree clean again (`git -C {wt} checkout -- .`; the untracked change_k.diff / demo_k.py files stay).

Final message: for each change: the file/function edited, which clause of the property it breaks, exactly what is needed for it to manifest, the commands you ran and their outcomes (demo with/without the change, test results).""")
