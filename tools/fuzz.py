#!/venv/bin/python
"""Coverage-guided campaign for one sub-check (atheris / libFuzzer).

libFuzzer mutates a byte string under coverage feedback from the instrumented
rl_blox modules; Hypothesis' ``fuzz_one_input`` decodes the bytes into the
sub-check's structured case (the same strategy the random tier uses), and the
case is executed by the same ``run(case)`` oracle.  The reproducible unit is
the saved JSON case (replayed with check.py --replay), not the byte string.

usage: fuzz.py <Cxx> <subcheck> --runs N --seed S --out result.json [--corpus dir]
Writes counters to --out (periodically and on failure); exits 0 / 1 / 2 like
check.py.  Spawned by the runner in the thorough tier.
"""
import json
import os
import sys

HERE = os.path.dirname(os.path.dirname(os.path.abspath(__file__)))
sys.path.insert(0, HERE)
sys.path.insert(0, os.path.join(HERE, ".deps"))


def main():
    import argparse

    ap = argparse.ArgumentParser()
    ap.add_argument("prop")
    ap.add_argument("sub")
    ap.add_argument("--runs", type=int, default=20000)
    ap.add_argument("--seed", type=int, default=1)
    ap.add_argument("--out", required=True)
    ap.add_argument("--corpus", default=None)
    ap.add_argument("--max-len", type=int, default=4096)
    a = ap.parse_args()

    from vlib import core, runner

    os.environ.setdefault("VERIF_TIER", "thorough")
    runner.prepare_env()
    import atheris

    mod = runner.load_module(a.prop)
    sub = runner.find_sub(mod, a.sub)
    include = list(getattr(mod, "FUZZ_INSTRUMENT", ["rl_blox"]))
    # instrument the code under test (re-import under instrumentation)
    for name in [m for m in sys.modules if m == "rl_blox" or m.startswith("rl_blox.")]:
        del sys.modules[name]
    with atheris.instrument_imports(include=["rl_blox"], enable_loader_override=False):
        import importlib
        import pkgutil

        import rl_blox

        names = list(include)
        if names == ["rl_blox"]:
            names = [m.name for m in pkgutil.walk_packages(rl_blox.__path__, "rl_blox.")]
        for name in names:
            try:
                importlib.import_module(name)
            except Exception:  # noqa: BLE001
                pass
    runner.assert_tree()
    core.configure(a.prop, core.KnownFindings(os.path.join(HERE, "KNOWN_FINDINGS.txt")))

    from hypothesis import given, settings, HealthCheck

    stats = {"evals": 0, "nontrivial": 0, "fps": set(), "labels": {}, "known": {}, "samples": [],
             "violation": None, "error": None, "invalid": 0}

    def dump():
        d = dict(stats)
        d["fps"] = sorted(stats["fps"])
        tmp = a.out + ".tmp"
        with open(tmp, "w") as f:
            json.dump(d, f, default=core._json_default)
        os.replace(tmp, a.out)

    @settings(database=None, deadline=None, suppress_health_check=list(HealthCheck))
    @given(case=sub.get_strategy())
    def test(case):
        stats["evals"] += 1
        try:
            out, known = runner.execute(sub, case)
        except core.Violation as v:
            stats["violation"] = {"key": v.key, "detail": v.detail, "case": case}
            dump()
            raise
        for k in known:
            stats["known"][k] = stats["known"].get(k, 0) + 1
        for lab in out.labels:
            stats["labels"][lab] = stats["labels"].get(lab, 0) + 1
        if out.nontrivial:
            stats["nontrivial"] += 1
            fp = core.fingerprint(out.fp if out.fp is not None else case)
            if fp not in stats["fps"]:
                stats["fps"].add(fp)
                if len(stats["samples"]) < 3:
                    stats["samples"].append(case)
        if stats["evals"] % 200 == 0:
            dump()

    fuzz_one = test.hypothesis.fuzz_one_input

    def target(data):
        stats["calls"] = stats.get("calls", 0) + 1
        try:
            fuzz_one(data)
        except core.Violation:
            raise
        except core.HarnessError as e:
            stats["error"] = str(e)
            dump()
            raise
        if stats["calls"] % 500 == 0 or stats["calls"] >= a.runs - 2:
            dump()

    corpus = a.corpus or os.path.join(os.environ.get("TMPDIR", "/tmp"), f"verif_corpus_{os.getpid()}")
    os.makedirs(corpus, exist_ok=True)
    argv = [sys.argv[0], f"-runs={a.runs}", f"-seed={a.seed or 1}", f"-max_len={a.max_len}",
            "-print_final_stats=0", "-verbosity=0", "-len_control=0", f"-artifact_prefix={corpus}/", corpus]
    dump()
    atheris.Setup(argv, target)
    atheris.Fuzz()


if __name__ == "__main__":
    main()
