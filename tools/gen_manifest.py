#!/usr/bin/env python3
"""Regenerate MANIFEST.json from the table below (keeps it schema-valid)."""
import json
import os

HERE = os.path.dirname(os.path.dirname(os.path.abspath(__file__)))

# property id -> (technique, level text, level note, design ref)
CHECKS = {}


def add(pid, technique, text, note, ref):
    CHECKS[pid] = (technique, text, note, ref)


add("C18", "Hypothesis-generated inputs vs float64 / exact-rational reference oracles",
    "Generated-input search (Hypothesis) over bin layouts, values at edges/extremes/inside, errors, masks, vectors "
    "and schedule parameters; each output compared with an independent float64 or exact-rational reference and, "
    "for masking, bitwise invariance under perturbation of masked rows. Exploration, not proof: held on every "
    "generated case (counts in the evidence file).",
    "Trusts numpy float64 as reference arithmetic; two-hot exponent ranges limited to +-15 (documented default +-10); "
    "float32 rounding tolerances as stated in DESIGN §3.",
    "DESIGN.md §5 C18")

add("C01", "Hypothesis-generated training histories on scripted recording environments vs the environment log (reference-model / history-invariant oracle)",
    "Generated (routine, episode script, budget, warm-up, buffer capacity, seeds) histories for 21 training routines run against a "
    "self-describing recording environment; every stored transition (buffer proxy, final buffer arrays, episode datasets, A2C/PPO rollout "
    "rows, tabular update arguments) is compared with the environment log, and the observation the policy / planner acted on is checked via "
    "probe networks and wrapped callables. Exploration: tens of histories per routine per run, built so that nearly every history has "
    "episode boundaries after warm-up and buffer wrap-around.",
    "Trusts the test-side recording environment and buffer proxy; histories are <= 60 steps (quick) / 120 (thorough); acting clause for "
    "continuous off-policy routines is covered through probe networks only.",
    "DESIGN.md §5 C01")
add("C08", "Hypothesis-generated add/sample/update/reset histories with stub generators vs an exact rational cumulative-interval oracle; chi-square frequency test",
    "Generated operation histories over LAP, PER, the prioritized subtrajectory buffer and the multi-task wrapper; uniforms are placed on, "
    "next to and inside chosen cumulative intervals through a stub generator, and the returned index is compared with an exact "
    "fractions.Fraction inverse-CDF oracle (adjacent index only within a rigorous float64 rounding bound); priority initialisation, update "
    "targets, max-priority tracking, importance weights, priority functions and empirical frequencies are checked against models written "
    "from the statement.",
    "Zero total priority and u=0 are outside the domain; update dtype drawn once per history (callers pass float32); mask and FIFO order "
    "taken from the buffer under test (C02/C04 decide those).",
    "DESIGN.md §5 C08")

add("C09", "Differential re-run oracle over Hypothesis-generated training histories (two fresh runs + perturbed unseeded sources; cross-process PYTHONHASHSEED variant)",
    "Every training routine (25 incl. CMA-ES) is run twice from freshly built, identically seeded objects on a scripted environment with a "
    "generated history/config that exercises learning; before the second run numpy's and Python's global generators are re-seeded "
    "differently and time.time is shifted; digests of all module/optimizer states, buffer contents, returned values, MemoryLogger records "
    "and actions sent to the environment must be bit-identical. Eight routines are additionally run in two fresh interpreters with "
    "different PYTHONHASHSEED. A third run with seed+1 must differ (non-vacuity).",
    "Exploration with small counts (runs cost seconds): 2 generated cases per routine in the quick tier. Thread-scheduling dependence "
    "inside XLA is out of reach (single-threaded XLA in the checks). The three multi-task schedulers run with DDPG/TD3/SAC backbones (SMT cases constructed so the training pool is refilled while tasks tie).",
    "DESIGN.md §5 C09")
add("C11", "Hypothesis-generated budgets / episode scripts / continuation calls on step-capped recording environments vs a history-invariant oracle; float64 reference model for the bandit selectors",
    "Generated (routine, script, budget incl. 0 and 1, start step, episode limit, warm-up) histories for every training routine, the rollout "
    "helper and the three multi-task schedulers (stub and real backbones); the environment log decides executed steps, episode "
    "discipline and first-update time, which are compared with the returned counters and per-task totals. Selector op sequences are "
    "checked for protocol alternation and against an independent float64 discounted-UCB recomputation.",
    "Budgets <= 120 steps, delays 1-4; warm-up clause in its narrow reading (an update at step s fails only if s+1 < learning_starts); "
    "recorded findings: batch collectors overshoot by less than one collection, zero-budget UnboundLocalError in the schedulers.",
    "DESIGN.md §5 C11")

add("C02", "Model-based testing: Hypothesis-generated add/sample/sweep/len/select-task/save(pickle, deepcopy) op lists vs an independent list-based FIFO reference model (stub generators enumerate every live index); atheris campaign in the thorough tier",
    "Generated operation sequences over ReplayBuffer, LAP, PER and the multi-task wrapper (capacities 1-12, six key/dtype/shape schemas); "
    "after every op the real buffer is compared with a list model: length, slot contents as bytes of the storage dtype, every sampled row "
    "decoding to exactly one live transition in all fields, task isolation, invalid select_task rejected without effect, reads "
    "(len, sample, pickle / deep copy of the running buffer) leave the storage byte-identical.",
    "In-range values only; priorities are not updated here (C08); the slot-layout clause (i mod N) and the stub sweeps are tied to the "
    "documented ring layout.",
    "DESIGN.md §5 C02")
add("C04", "Model-based testing: Hypothesis-generated normal/terminated/truncated step histories with tagged observations; stub generators make one sample_batch return every admissible start; each window checked against the episode/time tags",
    "Generated histories over the uniform and prioritized subtrajectory buffers (storage horizon 1-5, capacity horizon+1..+10, wrap-around, "
    "back-to-back one-step episodes); every admissible start index is enumerated through a stub generator after (in 3 of 4 cases) every single "
    "addition, and each window is checked on its prefix up to the first terminated row for contiguity, single episode, alignment of all "
    "fields, no truncated step, no stale or unwritten slot; the reduced view must equal the projection of the intermediate view.",
    "Clauses applied to the prefix up to and including the first terminated row (DESIGN interpretation); completeness of the start set is "
    "not demanded; default keys/dtypes (the MR.Q configuration).",
    "DESIGN.md §5 C04")
add("C06", "Hypothesis-generated parameter trees / tau and training histories; snapshot recorder (logger callbacks + env on_step) vs the Polyak / hard-copy recurrence applied to the previous snapshot",
    "Function level: soft/hard updates over ten module kinds, tau incl. 0 and 1, compared leaf by leaf with tau*online+(1-tau)*target "
    "(<= 2 ulp, exact at 0/1), online unchanged, no shared variables. History level: Nature-DQN, DDQN, PER, DDPG, TD3, TD3+LAP, SAC, TD7 "
    "(also _train_step directly) and MR.Q with generated delays/tau/warm-up: every byte change of a target must equal the rule applied to "
    "the previous target and the online network of that moment, changes only on the documented cadence, none before learning starts "
    "and none between the hand-over of the networks and the first environment step of a call (supplied targets are clones or differ "
    "from the online networks in every leaf; MR.Q also as two calls continuing on a period boundary); "
    "target=None twin runs bit-equal and storage-disjoint.",
    "Delays 1-7, <= 100 steps; cadence phase-free except where a phase is documented (DESIGN §11); magnitudes capped at 1e30.",
    "DESIGN.md §5 C06, §11")

add("C14", "Hypothesis-generated tables / transitions / episode lists / transition histories vs numpy float64 textbook references; existential oracle for planning; recorded runs replayed by the reference",
    "Single-update functions of Q-learning, SARSA, double Q-learning and Dyna-Q, Monte-Carlo episode updates, the Dyna-Q model over "
    "histories with stochastic successors and planning are compared with independent numpy references (only entry (s,a) of the updated "
    "table may change, by the documented amount); short recorded runs on a scripted tabular environment are replayed step by step from "
    "the tables observed through wrapped module-level callables.",
    "Dyna-Q's real-step update is not required to honour `terminated` (not stated); ties in an argmax accept any maximiser; planning "
    "searched exhaustively up to 3 steps.",
    "DESIGN.md §5 C14")
add("C15", "Model-based testing: Hypothesis-generated (episode length, return) sequences vs a history-level model of the assessment function written from the statement; TD7 runs on an environment whose scripted rewards realise such sequences; atheris campaign in the thorough tier",
    "assess_performance_and_checkpoint is driven with generated sequences (returns drawn around the running best, window sizes, thresholds, "
    "reset weights) and compared after every call with a model of conservation, release-at-window-end, checkpoint and cut-short rules and "
    "the single window switch; train_td7 runs are observed through a snapshot logger: released iterations, checkpoint epochs, checkpoint "
    "bytes and the returned actor/embedding.",
    "TD7 runs <= 150 steps, hidden width 4; a threshold already reached at the start demands no switch; total_episodes / continuation "
    "runs not generated.",
    "DESIGN.md §5 C15")

add("C07", "Hypothesis-generated reward/value/termination sequences and rollouts vs float64 / exact-rational recurrences; metamorphic non-interference (perturb data that must not matter, compare bitwise); differential against a per-environment reference update",
    "compute_gae, discounted_n_step_return and discounted_reward_to_go are compared with float64 / exact-rational closed forms; for "
    "compute_gae, prepare_a2c_batch, the PPO rollout arrays, update_ppo (advantages read back through a probe actor; real nets vs a "
    "per-environment reference update), mrq_loss and model_based_encoder_loss the outputs for (env, t) are recomputed after replacing other "
    "environments' data, earlier steps and post-terminal steps by arbitrary finite values and compared bitwise.",
    "Truncation boundaries are not treated as cuts (the statement speaks of termination); only the bootstrap observation of a truncated "
    "PPO step is demanded. Loud rejections (A2C with one environment raises) are not violations.",
    "DESIGN.md §5 C07")
add("C16", "Hypothesis-generated ask/tell histories (ties, +-inf, NaN fitness), architectures and CEM inputs vs invariant oracles with the optimiser's own float32 rounding; tie permutations enumerated",
    "CMA-ES: recombination weights, incumbent bookkeeping after every tell, mean = weighted best-mu candidates for some ranking consistent "
    "with the fitness order, step-size growth bound, covariance symmetry and positive diagonal; flat_params/set_params round trip over 21 "
    "architectures; CEM: candidates and means within bounds (4 ulp), update from exactly the n_elite best, also inside optimize_cem and "
    "train_cmaes on a scripted environment.",
    "Covariance positive-diagonal clause for active CMA-ES only exercised with sampler-produced candidates; NaN fitness required to rank last.",
    "DESIGN.md §5 C16, §11")
add("C17", "Hypothesis-generated ensembles / inputs / data-set sizes vs float64 references (member slices of the joint pass, law of total variance, closed-form NLL, numpy plan evaluation), wrapped train_epoch for bootstrap multisets, gymnasium Pendulum-v1 as differential oracle",
    "Member i's base_predict / base_distribution for vector and batch inputs against slice i of the joint forward pass (n_outputs >= 2), "
    "log-variance bounds with raw values +-50, aggregate vs the law of total variance, per-epoch per-member index multisets within the "
    "member's bootstrap sample, gaussian_nll closed form, evaluate_plans vs a numpy loop, ts_inf through the standardised noise, "
    "pendulum_reward vs the environment's own step reward.",
    "A single vector's joint pass is taken as __call__(x[None])[:, 0] (__call__ rejects 1-D input); gaussian_nll read as the mean over all "
    "N*d elements.",
    "DESIGN.md §5 C17")

add("C19", "Model-based / differential testing: Hypothesis-generated op-list prefix -> pickle round trip -> generated continuation applied in lockstep to original and reloaded buffer; module round trips through pickle helper and Orbax checkpoints over 17 architectures",
    "Every buffer class (uniform, LAP, PER, both subtrajectory buffers, multi-task over all of them) is driven by a generated prefix, pickled "
    "and reloaded, then both copies receive the same generated continuation (adds, samples with the same generator seeds, priority updates); "
    "results, generator state and stored data must stay byte-equal after every op. Modules of every architecture are saved with save_pickle "
    "and with OrbaxCheckpointer / StandardLogger checkpoints and restored with orbax and restore_checkpoint: byte-equal state and outputs.",
    "CPU only (move_to_device None/'cpu'); storage allocated after the save is compared on the filled region; parameters finite float32.",
    "DESIGN.md §5 C19")
add("C20", "Model-based testing: Hypothesis-generated start/stop/record op lists vs a list reference model for MemoryLogger / StandardLogger / LoggerList; generated non-decreasing step sequences vs the floor(step/I) crossing oracle with save replaced by a recorder; bounded real-save cases; atheris campaigns in the thorough tier",
    "Logger op sequences with explicit / implicit episode and step arguments are compared with a list model (values, locations, counters, "
    "identical records in every LoggerList member); checkpoint cadence of OrbaxCheckpointer (one checkpoint iff floor(step/I) grew) and "
    "StandardLogger (every I-th recorded epoch) over generated step sequences with repeats, jumps over several intervals and exact "
    "multiples; a bounded number of real saves whose listed paths must restore to the saved bytes.",
    "Implicit wall-clock t only checked for finiteness; checkpoint frequencies are defined before a key's first record (as every caller does); "
    "AIMLogger / StdoutLogger not exercised.",
    "DESIGN.md §5 C20")

add("C10", "Hypothesis-generated boxes / keys / noise settings / network outputs vs the documented sampling formula re-evaluated from the same key; box-membership invariants over recorded training histories (every env action, every sampler and CEM call)",
    "sample_actions / sample_target_actions equal the documented formula (jax.random.normal from the same key) and stay inside the box exactly, "
    "smoothing noise within noise_clip * half-range; tanh policies stay within 4 ulp of the bounds for outputs up to float32 max; CEM "
    "candidates and means within the bounds (and within the distance to the nearer bound) function-level and across optimize_cem loops; in "
    "DDPG, TD3, TD3+LAP, TD7, MR.Q and PETS runs on a recording environment every action received and every sampler / planner call is checked.",
    "float32; bounds |b| <= ~2e3, range >= 1e-3; 4-ulp allowance only for unclipped quantities; PETS needs n_samples >= 10.",
    "DESIGN.md §5 C10")

add("C05", "Hypothesis-generated batches / parameters / optimizers per update routine; byte-wise before/after snapshot of every reachable module, optimizer and input (non-interference oracle) plus a gradient-based must-change oracle; post-run aliasing checks on short training histories",
    "For 24 update routines (train_step_with_loss x 8 losses, DDPG/SAC/TD7/MR.Q/PPO/A2C/REINFORCE/actor-critic updates, SALE and encoder "
    "updates, entropy control, TD7 _train_step, the PETS ensemble) and pure evaluations: everything outside the documented-to-train set "
    "must be byte-identical after the call, inside it only nnx.Param leaves may change, and every parameter whose optimizer step is "
    "float32-representable must have changed. A history sub-check runs short training routines and demands that components returned under "
    "different roles share no storage and obey the same isolation when the update routines are applied to the returned state.",
    "Batch size 1 excluded (several losses reject it loudly); learning rate 0 not generated; which optimizer steps a module is not "
    "checked; step-by-step isolation inside whole training loops only through td7._train_step and the post-run checks.",
    "DESIGN.md §5 C05")

add("C03", "Hypothesis-generated batches / parameters / hyper-parameters per loss vs per-sample float64 references built from the modules' own forward passes; independently written jax objectives for gradients; exact-zero gradient, bitwise non-interference and permutation metamorphic relations",
    "Thirteen sub-checks (DQN, Nature-DQN, DDQN, PER-DDQN, DDPG, TD3, TD3+LAP, SAC, clipped double-Q, SALE embedding, TD7 critic update, "
    "MR.Q loss, model-based encoder loss): value and auxiliary outputs against the docstring formula per sample, gradient of the trained "
    "module against a constant-target objective, exactly zero gradient w.r.t. targets and bootstrap inputs, bitwise invariance when "
    "successors of terminated rows are replaced, batch-permutation invariance, batch size 1 matches or raises.",
    "Double-Q losses read as the sum over the two critics of the per-critic mean loss; TD7 clause 3 checked as byte-identical targets after "
    "the call (the function performs its own update); SAC permutation invariance with a deterministic probe policy.",
    "DESIGN.md §5 C03")

add("C12", "Hypothesis-generated batches / advantages / old log-probabilities placing ratios on each side of the clip range / policy heads and critic shapes vs float64 value references and independently written jax objectives for gradients",
    "Policy-gradient pseudo-losses (REINFORCE with/without baseline, actor-critic, A2C; jax or numpy arguments, evaluated once or twice "
    "on the same arguments, which must stay unmodified), ppo_loss (value, critic gradient, actor gradient "
    "at unchanged parameters / all samples clipped on the favoured side / mixed batches, with an exact zero-weight clause for "
    "favoured-clipped samples), DPG / SALE / MR.Q policy losses, sac_actor_loss with (N,1) and (N,) critics, temperature loss and the sign "
    "of the first alpha step; the jitted update wrappers must move the actor by -lr*grad and leave critics/embeddings byte-identical.",
    "PPO coefficients 0.5 / 0.01 taken from the code (the docstring does not state them); shapes from signature pools; ill-conditioned "
    "float32 log-densities are labelled and skipped.",
    "DESIGN.md §5 C12")
add("C13", "Hypothesis-generated observations / parameters / keys per policy head vs closed-form float64 references and standardised-noise invariance; exact Poisson-binomial tail bounds on exploration counts in recorded DQN-family and tabular runs",
    "Softmax probabilities / log-probabilities / entropy, Gaussian and tanh-Gaussian log-density, per-dimension entropy and samples "
    "(single observation, batches 1-8, action dims 1-4, logits to +-1e4, log-variances beyond the clip range), sampling frequencies, greedy "
    "and epsilon-greedy selection with ties; in DQN / Nature-DQN / DDQN / PER runs (warm-up 0-40 % of the budget) every step without a "
    "recorded random draw must be greedy on the current online network and exploration counts per schedule window must lie inside exact "
    "tail intervals at 1e-9; tabular loops with epsilon 0 / 1 / intermediate.",
    "Tabular runs use learning rate 0 (the live table is not observable otherwise); epsilon continuation with global_step > 0 not generated.",
    "DESIGN.md §5 C13, §11")

NOT_APPLICABLE = {}


def main():
    props = [json.loads(l) for l in open(os.path.join(HERE, "properties.jsonl"))]
    checks = []
    for p in props:
        pid = p["id"]
        if pid not in CHECKS:
            continue
        tech, text, note, ref = CHECKS[pid]
        checks.append({
            "property_id": pid,
            "quick_cmd": f"/venv/bin/python check.py {pid} --tier quick",
            "thorough_cmd": f"/venv/bin/python check.py {pid} --tier thorough",
            "evidence_file": f"/verif/evidence/{pid}.json",
            "replay_cmd_template": f"/venv/bin/python check.py {pid} --replay {{path}}",
            "engine": "hypothesis-runner",
            "level_claimed": {"category": "exploration", "text": text, "design_ref": ref},
            "level_note": note,
            "technique": tech,
        })
    na = []
    for p in props:
        pid = p["id"]
        if pid in CHECKS:
            continue
        na.append({"property_id": pid,
                   "reason": NOT_APPLICABLE.get(pid, "check not built yet (planned, see DESIGN.md §5); not claimed until it is")})
    man = {
        "version": 1,
        "setup_cmd": "/venv/bin/python tools/setup.py",
        "hooks": {
            "guard": "RL_BLOX_VERIF",
            "enable": "no hooks: every observation is made through public API objects the checks construct "
                      "(environments, buffers, loggers, networks) or by wrapping module-level callables from the test side",
            "baseline_off_cmd": "cd /repo && /venv/bin/python -m pytest -ra -q -p no:cacheprovider --timeout=900 --continue-on-collection-errors",
            "source_commits": [],
            "add_only": True,
        },
        "engines": [{
            "name": "hypothesis-runner", "path": "/verif/check.py",
            "serves_properties": sorted(CHECKS),
            "kind_free_text": "Sharded Hypothesis 6.168 runner (vlib/runner.py): generated cases -> run(case) against the real "
                              "code and an explicit oracle; shrunk failures saved as JSON replay files; evidence written per run",
        }],
        "checks": checks,
        "not_applicable": na,
        "notes": "All checks import rl_blox from /repo's working tree (editable install; VERIF_REPO overrides for scratch copies). "
                 "Exit 2 = harness error / inconclusive, never a violation. KNOWN_FINDINGS.txt lists recorded defects.",
    }
    with open(os.path.join(HERE, "MANIFEST.json"), "w") as f:
        json.dump(man, f, indent=1)
    print("wrote MANIFEST.json:", len(checks), "checks,", len(na), "not claimed")


if __name__ == "__main__":
    main()
