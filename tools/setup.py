#!/venv/bin/python
"""Offline setup: make sure hypothesis is importable in /venv; create dirs."""
import os
import subprocess
import sys

HERE = os.path.dirname(os.path.dirname(os.path.abspath(__file__)))
try:
    import hypothesis  # noqa: F401
except ImportError:
    subprocess.run([sys.executable, "-m", "pip", "install", "--no-index", "--quiet",
                    "--find-links", "/opt/veriftools/wheels", "hypothesis"], check=True)
for d in ("evidence", "replays/found", ".cache/jax"):
    os.makedirs(os.path.join(HERE, d), exist_ok=True)
import hypothesis  # noqa: E402,F811

print("setup ok: hypothesis", hypothesis.__version__)
