#!/venv/bin/python
"""Offline setup: make sure hypothesis is importable in /venv; create dirs."""
import os
import subprocess
import sys

HERE = os.path.dirname(os.path.dirname(os.path.abspath(__file__)))
try:
    import hypothesis  # noqa: F401
except ImportError:
    subprocess.run([sys.executable, "-m", "pip", "install", "--no-index", "--quiet",
                    "--find-links", "/opt/veriftools/wheels", "hypothesis"], check=True)
deps = os.path.join(HERE, ".deps")
if not os.path.isdir(os.path.join(deps, "atheris")):
    # optional: coverage-guided tier (thorough); checks fall back to Hypothesis only without it
    subprocess.run([sys.executable, "-m", "pip", "install", "--no-index", "--quiet", "--find-links",
                    "/opt/veriftools/wheels", "--target", deps, "atheris"], check=False)
for d in ("evidence", "replays/found", ".cache/jax"):
    os.makedirs(os.path.join(HERE, d), exist_ok=True)
import hypothesis  # noqa: E402,F811

print("setup ok: hypothesis", hypothesis.__version__)
