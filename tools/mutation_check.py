#!/venv/bin/python
"""Sensitivity runs (DESIGN §7.3): apply each mutant patch to a scratch copy of
/repo (outside /repo and /verif), run the property's check with VERIF_REPO
pointing there and expect exit 1.  The scratch copy is removed afterwards.

usage: mutation_check.py [Cxx ...] [--tier quick] [--scale 1.0] [--patch file]
Patches live in mutants/<Cxx>/<name>.patch (git diff format, -p1) and
seeded/<id>/patch.diff (meta.json names the property).
"""
import argparse
import glob
import json
import os
import shutil
import subprocess
import sys
import tempfile
import time

HERE = os.path.dirname(os.path.dirname(os.path.abspath(__file__)))


def collect(props):
    out = []
    for pid in props:
        for p in sorted(glob.glob(os.path.join(HERE, "mutants", pid, "*.patch"))):
            out.append((pid, p))
    for meta in sorted(glob.glob(os.path.join(HERE, "seeded", "*", "meta.json"))):
        m = json.load(open(meta))
        pid = m["property"]
        if pid in props:
            out.append((pid, os.path.join(os.path.dirname(meta), "patch.diff")))
    return out


def run_one(pid, patch, tier, scale, only=None):
    patch = os.path.abspath(patch)
    scratch = tempfile.mkdtemp(prefix="verif_mut_", dir=os.environ.get("VERIF_SCRATCH", "/tmp"))
    try:
        subprocess.run(["rsync", "-a", "--exclude", ".git", "--exclude", "htmlcov", "--exclude", "__pycache__",
                        "/repo/", scratch + "/"], check=True)
        r = subprocess.run(["patch", "-p1", "-s", "-i", patch], cwd=scratch, capture_output=True, text=True)
        if r.returncode != 0:
            return "PATCH-FAILED", r.stdout + r.stderr, 0.0
        env = dict(os.environ, VERIF_REPO=scratch, VERIF_NO_JAX_CACHE=os.environ.get("VERIF_NO_JAX_CACHE", ""),
                   VERIF_FOUND_DIR=os.path.join(scratch, "_verif_found"))
        env.pop("PYTHONPATH", None)
        cmd = ["/venv/bin/python", os.path.join(HERE, "check.py"), pid, "--tier", tier, "--no-evidence",
               "--scale", str(scale)]
        if only:
            cmd += ["--only", only]
        t0 = time.time()
        r = subprocess.run(cmd, cwd=HERE, env=env, capture_output=True, text=True)
        dt = time.time() - t0
        status = {0: "SURVIVED", 1: "KILLED", 2: "HARNESS-ERROR"}.get(r.returncode, f"rc={r.returncode}")
        lines = [l for l in r.stdout.splitlines() if l.startswith(("violation", "HARNESS"))]
        return status, "\n".join(lines[:6]) if lines else r.stdout[-800:] + r.stderr[-800:], dt
    finally:
        # replay files written for mutants live in the scratch copy (VERIF_FOUND_DIR)
        shutil.rmtree(scratch, ignore_errors=True)


def main():
    ap = argparse.ArgumentParser()
    ap.add_argument("props", nargs="*")
    ap.add_argument("--tier", default="quick")
    ap.add_argument("--scale", type=float, default=1.0)
    ap.add_argument("--patch", default=None)
    ap.add_argument("--only", default=None)
    ap.add_argument("--verbose", "-v", action="store_true")
    ap.add_argument("--json", default=None, help="write the kill table to this file")
    a = ap.parse_args()
    props = [p.upper() for p in a.props]
    items = [(props[0], a.patch)] if a.patch else collect(props)
    table = []
    for pid, patch in items:
        status, info, dt = run_one(pid, patch, a.tier, a.scale, a.only)
        name = os.path.relpath(patch, HERE)
        print(f"{status:14s} {pid} {name} ({dt:.0f}s)")
        if a.verbose or status != "KILLED":
            print("    " + info.replace("\n", "\n    "))
        sys.stdout.flush()
        table.append({"property": pid, "patch": name, "status": status, "wall_s": round(dt, 1)})
    killed = sum(t["status"] == "KILLED" for t in table)
    print(f"{killed}/{len(table)} killed")
    if a.json:
        with open(a.json, "w") as f:
            json.dump(table, f, indent=1)
    return 0 if killed == len(table) else 1


if __name__ == "__main__":
    sys.exit(main())
