#!/venv/bin/python
"""Import and confirm independently written property-breaking changes.

  seeded.py import <id> <property> <patch> <demo> "<what it breaks>" "<what it needs to manifest>"
  seeded.py confirm <id> [--tests]     demo passes on a clean scratch copy of /repo, fails with the
                                       patch; with --tests the repository's test suite passes with
                                       the patch.  Results are recorded in seeded/<id>/meta.json.
  seeded.py detect [<id> ...]          run the property's quick check against each change on a
                                       scratch copy (VERIF_REPO) and record detected / missed.
Scratch copies live under /tmp and are removed afterwards; /repo is never touched.
"""
import glob
import json
import os
import shutil
import subprocess
import sys
import tempfile
import time

HERE = os.path.dirname(os.path.dirname(os.path.abspath(__file__)))
SD = os.path.join(HERE, "seeded")
ENV = dict(os.environ, JAX_PLATFORMS="cpu", TQDM_DISABLE="1")


def scratch(patch=None):
    d = tempfile.mkdtemp(prefix="verif_seed_", dir="/tmp")
    subprocess.run(["rsync", "-a", "--exclude", ".git", "--exclude", "htmlcov", "--exclude", "__pycache__",
                    "/repo/", d + "/"], check=True)
    if patch:
        r = subprocess.run(["patch", "-p1", "-s", "-i", patch], cwd=d, capture_output=True, text=True)
        if r.returncode != 0:
            shutil.rmtree(d, ignore_errors=True)
            raise RuntimeError("patch failed: " + r.stdout + r.stderr)
    return d


def load(i):
    with open(os.path.join(SD, i, "meta.json")) as f:
        return json.load(f)


def save(i, m):
    with open(os.path.join(SD, i, "meta.json"), "w") as f:
        json.dump(m, f, indent=1)


def run_demo(tree, demo):
    env = dict(ENV, PYTHONPATH=tree)
    r = subprocess.run(["/venv/bin/python", demo], cwd=tree, env=env, capture_output=True, text=True, timeout=3600)
    return r.returncode, (r.stdout + r.stderr)[-600:]


def cmd_import(a):
    i, prop, patch, demo, breaks, needs = a
    d = os.path.join(SD, i)
    os.makedirs(d, exist_ok=True)
    shutil.copy(patch, os.path.join(d, "patch.diff"))
    shutil.copy(demo, os.path.join(d, "demo.py"))
    save(i, {"id": i, "property": prop, "breaks": breaks, "needs": needs,
             "origin": "independent sub-agent given only the property text and a scratch worktree",
             "ran": []})
    print("imported", i)


def cmd_confirm(a):
    tests = "--tests" in a
    ids = [x for x in a if not x.startswith("--")]
    for i in ids:
        m = load(i)
        patch = os.path.join(SD, i, "patch.diff")
        demo = os.path.join(SD, i, "demo.py")
        clean = scratch()
        try:
            rc0, out0 = run_demo(clean, demo)
        finally:
            shutil.rmtree(clean, ignore_errors=True)
        mut = scratch(patch)
        try:
            rc1, out1 = run_demo(mut, demo)
            m["demo_clean_rc"] = rc0
            m["demo_patched_rc"] = rc1
            m["ran"] = [r for r in m.get("ran", []) if not r.startswith("demo")]
            m["ran"].append(f"demo.py on clean scratch copy of /repo: exit {rc0}; with patch.diff applied: exit {rc1}")
            if tests:
                env = dict(ENV, PYTHONPATH=mut)
                t0 = time.time()
                r = subprocess.run(["/venv/bin/python", "-m", "pytest", "-q", "-p", "no:cacheprovider",
                                    "--timeout=3600", "tests"], cwd=mut, env=env, capture_output=True, text=True)
                tail = [l for l in r.stdout.splitlines() if "passed" in l or "failed" in l or "error" in l.lower()][-1:]
                m["tests_rc"] = r.returncode
                m["ran"] = [x for x in m["ran"] if not x.startswith("pytest")]
                m["ran"].append(f"pytest tests (31 tests) with patch applied: exit {r.returncode} {tail} ({time.time() - t0:.0f}s)")
        finally:
            shutil.rmtree(mut, ignore_errors=True)
        m["confirmed"] = bool(rc0 == 0 and rc1 == 1 and m.get("tests_rc", None) in (0, None))
        save(i, m)
        print(i, "demo clean rc", rc0, "patched rc", rc1, "tests", m.get("tests_rc"), "->", "OK" if m["confirmed"] else "NOT CONFIRMED")
        if rc0 != 0:
            print("   clean output:", out0)


def cmd_detect(a):
    ids = a or sorted(os.path.basename(os.path.dirname(p)) for p in glob.glob(os.path.join(SD, "*", "meta.json")))
    sys.path.insert(0, os.path.join(HERE, "tools"))
    import mutation_check

    for i in ids:
        m = load(i)
        prop = m["property"]
        if not glob.glob(os.path.join(HERE, "props", prop.lower() + "*.py")):
            print(i, "no check for", prop, "yet")
            continue
        status, info, dt = mutation_check.run_one(prop, os.path.join(SD, i, "patch.diff"), "quick", 1.0)
        m["detected_by_quick"] = status == "KILLED"
        m["detect_info"] = info[:400]
        m["ran"] = [r for r in m.get("ran", []) if not r.startswith("check.py")]
        m["ran"].append(f"check.py {prop} --tier quick with VERIF_REPO=<scratch copy with patch>: {status} ({dt:.0f}s)")
        save(i, m)
        print(f"{status:10s} {i} ({dt:.0f}s)")
        if status != "KILLED":
            print("    " + info.replace("\n", "\n    ")[:600])


if __name__ == "__main__":
    c = sys.argv[1]
    {"import": cmd_import, "confirm": cmd_confirm, "detect": cmd_detect}[c](sys.argv[2:])
